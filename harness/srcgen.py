"""Structured-program generator for the statement-level reference semantics (Model/Src.lean, C01).

A program is a tree; it is rendered as QBASIC source (INTEGER variables v0% ... vN%) and as the request of the model driver
(`src <fuel> <nvars> <block>`).  Loops are built around counters so that programs terminate; conditions are a mix of
comparisons and plain integer values (zero / non-zero)."""

OPS = {'add': '+', 'sub': '-', 'mul': '*', 'idiv': '\\', 'mod': 'MOD', 'eq': '=', 'ne': '<>', 'lt': '<', 'gt': '>', 'le': '<=', 'ge': '>=',
       'and': 'AND', 'or': 'OR', 'xor': 'XOR'}
NV = 6     # v0..v3 data, v4 / v5 loop counters handed out by the generator


ARRAYS = [None]     # the arrays of the program being generated / rendered: [(base, lo, hi)], cells behind the NV variables


def gen_arrays(rng):
    out = []
    base = NV
    for _ in range(rng.choice([0, 1, 1, 2])):
        lo = rng.choice([0, 1, -2, 3, -1])
        hi = lo + rng.randint(0, 4)
        out.append((base, lo, hi))
        base += hi - lo + 1
    return out


class G:
    def __init__(self, rng, callees=(), in_proc=False, protect=()):
        self.rng = rng
        self.counters = 0
        self.arrays = [] if in_proc else list(ARRAYS[0] or [])      # module-level arrays are not visible in procedures
        self.callees = list(callees)      # (index, nparams, recursive) of the procedures this body may call
        self.in_proc = in_proc
        self.protect = set(protect)       # variables the body must not assign (the descent variable of a recursive procedure)

    def target(self):
        while True:
            v = self.rng.randrange(4)
            if v not in self.protect:
                return v

    def call(self, to=None, first=None):
        """CALL of one of the callable procedures: a data variable (each at most once: no aliasing) goes by reference, anything
        else by value; the first argument of a recursive procedure is a small number (the depth)"""
        r = self.rng
        idx, np_, rec = to if to is not None else r.choice(self.callees)
        free = [v for v in range(4) if v not in self.protect]
        r.shuffle(free)
        args = []
        for i in range(np_):
            if i == 0 and first is not None:
                args.append(('X', first))
            elif i == 0 and rec:
                args.append(('X', ('N', r.randint(0, 3))))
            elif free and r.random() < 0.55:
                args.append(('R', free.pop()))
            else:
                args.append(('X', self.expr(1, True)))
        return ('C', idx, args)

    def expr(self, depth, small=False):
        r = self.rng
        if self.arrays and r.random() < 0.12:
            ai = r.randrange(len(self.arrays))
            return ('X', ai, self.index(ai))
        if depth <= 0 or r.random() < 0.35:
            if r.random() < 0.5:
                return ('N', r.choice([0, 1, 2, 3, 5, 7, -1, -2, 10] if small else [0, 1, 2, 3, 5, 7, -1, -2, 10, 100, 255, 1000, 32767, -32768 + 1]))
            return ('V', r.randrange(4))
        k = r.random()
        if k < 0.08:
            return ('G', self.expr(depth - 1, small))
        if k < 0.14:
            return ('T', self.expr(depth - 1, small))
        op = r.choice(['add', 'sub', 'mul', 'add', 'sub', 'idiv', 'mod', 'eq', 'ne', 'lt', 'gt', 'le', 'ge', 'and', 'or', 'xor'])
        return ('B', op, self.expr(depth - 1, small), self.expr(depth - 1, small))

    def index(self, ai):
        """a subscript: mostly inside the bounds of the array, sometimes just outside, a variable, or anything at all"""
        r = self.rng
        _, lo, hi = self.arrays[ai]
        k = r.random()
        if k < 0.6:
            return ('N', r.randint(lo, hi))
        if k < 0.7:
            return ('N', r.choice([lo - 1, hi + 1]))
        if k < 0.9:
            # a variable brought into the bounds: lo + (v MOD n) can still be below lo for a negative v
            return ('B', 'add', ('N', lo), ('B', 'mod', ('V', r.choice([0, 1, 2, 3, 4, 5])), ('N', hi - lo + 1)))
        return self.expr(1, True)

    def cond(self, d=1):
        # (the real parser's time grows exponentially with the depth of parentheses: conditions stay shallow)
        r = self.rng
        k = r.random()
        if k < 0.5 or (d <= 0 and k >= 0.8):
            return ('B', r.choice(['eq', 'ne', 'lt', 'gt', 'le', 'ge']), self.expr(1, True), self.expr(1, True))
        if k < 0.8:
            return self.expr(1, True)          # a plain value: zero / non-zero
        return ('B', r.choice(['and', 'or']), self.cond(d - 1), self.cond(d - 1))

    def block(self, depth, in_do, in_for, n=None):
        r = self.rng
        out = []
        for _ in range(n or r.randint(1, 4)):
            out.append(self.stmt(depth, in_do, in_for))
        return out

    def stmt(self, depth, in_do, in_for):
        r = self.rng
        k = r.random()
        if self.callees and r.random() < 0.22:
            return self.call()
        if self.in_proc and depth > 0 and r.random() < 0.06:
            return ('I', self.cond(), [('XS',)], [])
        if self.arrays and r.random() < 0.15:
            ai = r.randrange(len(self.arrays))
            return ('AI', ai, self.index(ai), self.expr(1))
        if depth <= 0 or k < 0.3:
            if r.random() < 0.5:
                return ('P', self.expr(2))
            return ('A', self.target(), self.expr(2))
        if k < 0.4 and (in_do or in_for):
            ex = r.choice([x for x, ok in (('XD', in_do), ('XF', in_for)) if ok])
            return ('I', self.cond(), [(ex,)], [])
        if k < 0.55:
            return ('I', self.cond(), self.block(depth - 1, in_do, in_for), self.block(depth - 1, in_do, in_for) if r.random() < 0.5 else [])
        if k < 0.7 and self.counters < 2:
            # FOR over a dedicated counter
            c = 4 + self.counters
            self.counters += 1
            a, b = r.randint(-2, 4), r.randint(-2, 6)
            st = r.choice([1, 1, 2, -1, -2, 3])
            if r.random() < 0.12:
                # bounds near the limits of INTEGER: the range is wider than the type, the increment overflows at NEXT
                a, b = r.choice([(-30000, 30000), (30000, -30000), (32000, 32767), (-32000, -32767), (-32767, 32767), (20000, 32767)])
                st = r.choice([20000, 15000, 32767, 500]) * (1 if b >= a else -1)
            body = self.block(depth - 1, in_do, True)
            self.counters -= 1
            return ('F', c, ('N', a), ('N', b), ('N', st), body)
        if k < 0.88 and self.counters < 2:
            c = 4 + self.counters
            self.counters += 1
            n = r.randint(1, 4)
            inc = ('A', c, ('B', 'add', ('V', c), ('N', 1)))
            form = r.random()
            # a WHILE loop is not a DO loop: EXIT DO inside it belongs to an enclosing DO, if any
            body = self.block(depth - 1, in_do if form < 0.2 else True, in_for)
            pos = r.randrange(len(body) + 1)
            body = body[:pos] + [inc] + body[pos:]
            self.counters -= 1
            init = ('A', c, ('N', 0))
            lt = ('B', 'lt', ('V', c), ('N', n))
            ge = ('B', 'ge', ('V', c), ('N', n))
            left = ('B', 'sub', ('N', n), ('V', c))          # non-boolean: n - c, zero when done
            if form < 0.2:
                loop = ('W', r.choice([lt, left]), body)
            elif form < 0.4:
                loop = ('D', 1, r.choice([lt, left]), 0, ('N', 0), body)
            elif form < 0.6:
                loop = ('D', 2, r.choice([ge, ('B', 'eq', left, ('N', 0)), ('B', 'ge', ('V', c), ('N', n))]), 0, ('N', 0), body)
            elif form < 0.8:
                loop = ('D', 0, ('N', 0), 1, r.choice([lt, left]), body)
            else:
                loop = ('D', 0, ('N', 0), 2, r.choice([ge, ('B', 'mul', ge, ('N', 3))]), body)
            return ('SEQ', [init, loop])
        if k < 0.97:
            e = self.expr(1, True)
            cases = []
            for _ in range(r.randint(1, 3)):
                cl = []
                for _ in range(r.randint(1, 2)):
                    q = r.random()
                    if q < 0.5:
                        cl.append(('Q', ('N', r.randint(-2, 5))))
                    elif q < 0.75:
                        lo = r.randint(-2, 4)
                        cl.append(('R', ('N', lo), ('N', lo + r.randint(0, 3))))
                    elif q < 0.88:
                        cl.append(('L', ('N', r.randint(-1, 3))))
                    else:
                        cl.append(('H', ('N', r.randint(1, 5))))
                cases.append((cl, self.block(depth - 1, in_do, in_for, r.randint(1, 2))))
            dflt = self.block(depth - 1, in_do, in_for, 1) if r.random() < 0.6 else []
            return ('S', e, cases, dflt)
        return ('P', self.expr(1))


def strip_exit(block, which):
    out = []
    for s in block:
        if s == (which,):
            continue
        if s[0] == 'I':
            out.append(('I', s[1], strip_exit(s[2], which), strip_exit(s[3], which)))
        else:
            out.append(s)
    return out


def flatten(block):
    out = []
    for s in block:
        if s[0] == 'SEQ':
            out += flatten(s[1])
        elif s[0] == 'I':
            out.append(('I', s[1], flatten(s[2]), flatten(s[3])))
        elif s[0] == 'W':
            out.append(('W', s[1], flatten(s[2])))
        elif s[0] == 'D':
            out.append(('D', s[1], s[2], s[3], s[4], flatten(s[5])))
        elif s[0] == 'F':
            out.append(('F', s[1], s[2], s[3], s[4], flatten(s[5])))
        elif s[0] == 'S':
            out.append(('S', s[1], [(cl, flatten(b)) for cl, b in s[2]], flatten(s[3])))
        else:
            out.append(s)
    return out


def gen_procs(rng):
    """0-3 procedures (INTEGER parameters); a procedure may call the ones after it, and may call itself with a smaller first
    argument (the first parameter of such a procedure is never assigned)"""
    n = rng.choice([0, 1, 2, 2, 3])
    shapes = []
    for i in range(n):
        np_ = rng.randint(0, 3)
        shapes.append((i, np_, np_ >= 1 and rng.random() < 0.3))
    procs = []
    for i, np_, rec in shapes:
        g = G(rng, callees=shapes[i + 1:], in_proc=True, protect=[0] if rec else [])
        body = flatten(g.block(2, False, False, rng.randint(1, 3)))
        if rec:
            again = g.call(to=(i, np_, True), first=('B', 'sub', ('V', 0), ('N', 1)))
            pos = rng.randrange(len(body) + 1)
            body = body[:pos] + [('I', ('B', 'gt', ('V', 0), ('N', 0)), [again], [])] + body[pos:]
        if rng.random() < 0.5:
            body.append(('P', ('V', rng.randrange(4))))
        procs.append({'np': np_, 'body': body})
    return shapes, procs


def loop_of(kind, c, n, body):
    """a terminating loop of the given kind over counter c (0 .. n-1); the body must not touch c"""
    inc = ('A', c, ('B', 'add', ('V', c), ('N', 1)))
    lt = ('B', 'lt', ('V', c), ('N', n))
    ge = ('B', 'ge', ('V', c), ('N', n))
    if kind == 'for':
        return [('F', c, ('N', 0), ('N', n - 1), ('N', 1), body)]
    init = ('A', c, ('N', 0))
    b = body + [inc]
    return [init, {'while': ('W', lt, b), 'dowhile': ('D', 1, lt, 0, ('N', 0), b), 'dountil': ('D', 2, ge, 0, ('N', 0), b),
                   'loopwhile': ('D', 0, ('N', 0), 1, lt, b), 'loopuntil': ('D', 0, ('N', 0), 2, ge, b), 'do': ('D', 0, ('N', 0), 2, ge, b)}[kind]]


def gen_nested_exit(rng):
    """two or three nested loops of mixed kinds with an EXIT in the innermost or the middle one, and something observable
    on every level after the point the EXIT leaves"""
    kinds = ['for', 'while', 'dowhile', 'dountil', 'loopwhile', 'loopuntil']
    depth = rng.choice([2, 2, 3])
    ks = [rng.choice(kinds) for _ in range(depth)]
    counters = [4, 5, 3][:depth]
    # which EXIT is legal in the innermost body: EXIT FOR needs an enclosing FOR, EXIT DO an enclosing DO form
    legal = []
    if any(k == 'for' for k in ks):
        legal.append('XF')
    if any(k.startswith(('do', 'loop')) for k in ks):
        legal.append('XD')
    level_exit = rng.randrange(depth)          # the loop level whose body holds the EXIT

    def build(level):
        c = counters[level]
        body = [('P', ('B', 'add', ('B', 'mul', ('N', 10 * (level + 1)), ('N', 1)), ('V', c)))]
        if level == level_exit and legal:
            ks_here = ks[:level + 1]
            ok = [x for x in legal if (x == 'XF' and 'for' in ks_here) or (x == 'XD' and any(k.startswith(('do', 'loop')) for k in ks_here))]
            if ok:
                body.append(('I', ('B', 'eq', ('V', c), ('N', rng.randint(0, 2))), [(rng.choice(ok),)], []))
        if level + 1 < depth:
            body += build(level + 1)
        body.append(('P', ('B', 'add', ('N', 100 * (level + 1)), ('V', c))))
        return loop_of(ks[level], c, rng.randint(2, 3), body)
    return build(0) + [('P', ('N', 999))]


def gen(rng, depth=3):
    """-> (procedures, main block)"""
    ARRAYS[0] = []
    if rng.random() < 0.3:
        return [], gen_nested_exit(rng)
    shapes, procs = gen_procs(rng) if rng.random() < 0.6 else ([], [])
    ARRAYS[0] = gen_arrays(rng) if rng.random() < 0.5 else []
    g = G(rng, callees=shapes)
    prog = flatten(g.block(depth, False, False, rng.randint(1, 3)))
    if shapes:
        # every procedure is called at least once from somewhere; the data variables are shown at the end
        called = set()

        def walk(b):
            for s_ in b:
                if s_[0] == 'C':
                    called.add(s_[1])
                elif s_[0] == 'I':
                    walk(s_[2]); walk(s_[3])
                elif s_[0] in ('W',):
                    walk(s_[2])
                elif s_[0] in ('D', 'F'):
                    walk(s_[5])
                elif s_[0] == 'S':
                    for _, bb in s_[2]:
                        walk(bb)
                    walk(s_[3])
        walk(prog)
        for pr in procs:
            walk(pr['body'])
        for sh in shapes:
            if sh[0] not in called:
                prog.insert(rng.randrange(len(prog) + 1), g.call(to=sh))
        prog += [('P', ('V', v)) for v in range(4)]
    if rng.random() < 0.15:
        pos = rng.randrange(len(prog) + 1)
        prog = prog[:pos] + [('E',)] + prog[pos:]
    if procs and rng.random() < 0.2:
        # END inside a procedure ends the whole program
        b = rng.choice(procs)['body']
        b.insert(rng.randrange(len(b) + 1), ('I', ('B', 'eq', ('V', rng.randrange(4)), ('N', rng.randint(0, 2))), [('E',)], []))
    if ARRAYS[0]:
        # every element is shown at the end
        for ai, (b_, lo, hi) in enumerate(ARRAYS[0]):
            prog += [('P', ('X', ai, ('N', k))) for k in range(lo, hi + 1)]
        return procs, prog, list(ARRAYS[0])
    return procs, prog


# ---- rendering

NP = [None]     # the number of parameters of the procedure being rendered (None: the main program)


def var_name(i):
    if NP[0] is None:
        return f'v{i}%'
    return f'q{i}%' if i < NP[0] else f'w{i}%'


def src_expr(e):
    if e[0] == 'N':
        return str(e[1]) if e[1] >= 0 else f'({e[1]})'
    if e[0] == 'V':
        return var_name(e[1])
    if e[0] == 'G':
        return f'(-{src_expr(e[1])})'
    if e[0] == 'T':
        return f'(NOT {src_expr(e[1])})'
    if e[0] == 'X':
        return f'a{e[1]}%({src_expr(e[2])})'
    return f'({src_expr(e[2])} {OPS[e[1]]} {src_expr(e[3])})'


def src_arg(a):
    if a[0] == 'R':
        return var_name(a[1])
    t = src_expr(a[1])
    return t if t.startswith('(') or a[1][0] == 'N' else f'({t})'      # a bare variable would go by reference


def src_block(block, ind):
    out = []
    pad = '  ' * ind
    for s in block:
        k = s[0]
        if k == 'A':
            out.append(f'{pad}{var_name(s[1])} = {src_expr(s[2])}')
        elif k == 'P':
            out.append(f'{pad}PRINT {src_expr(s[1])}')
        elif k == 'I':
            out.append(f'{pad}IF {src_expr(s[1])} THEN')
            out += src_block(s[2], ind + 1)
            if s[3]:
                out.append(f'{pad}ELSE')
                out += src_block(s[3], ind + 1)
            out.append(f'{pad}END IF')
        elif k == 'W':
            out.append(f'{pad}WHILE {src_expr(s[1])}')
            out += src_block(s[2], ind + 1)
            out.append(f'{pad}WEND')
        elif k == 'D':
            head = 'DO' + ({0: '', 1: ' WHILE ' + src_expr(s[2]), 2: ' UNTIL ' + src_expr(s[2])}[s[1]])
            tail = 'LOOP' + ({0: '', 1: ' WHILE ' + src_expr(s[4]), 2: ' UNTIL ' + src_expr(s[4])}[s[3]])
            out.append(pad + head)
            out += src_block(s[5], ind + 1)
            out.append(pad + tail)
        elif k == 'F':
            out.append(f'{pad}FOR {var_name(s[1])} = {src_expr(s[2])} TO {src_expr(s[3])} STEP {src_expr(s[4])}')
            out += src_block(s[5], ind + 1)
            out.append(f'{pad}NEXT')
        elif k == 'S':
            out.append(f'{pad}SELECT CASE {src_expr(s[1])}')
            for cl, body in s[2]:
                parts = []
                for c in cl:
                    if c[0] == 'Q':
                        parts.append(src_expr(c[1]))
                    elif c[0] == 'R':
                        parts.append(f'{src_expr(c[1])} TO {src_expr(c[2])}')
                    elif c[0] == 'L':
                        parts.append(f'IS < {src_expr(c[1])}')
                    else:
                        parts.append(f'IS > {src_expr(c[1])}')
                out.append(f'{pad}CASE ' + ', '.join(parts))
                out += src_block(body, ind + 1)
            if s[3]:
                out.append(f'{pad}CASE ELSE')
                out += src_block(s[3], ind + 1)
            out.append(f'{pad}END SELECT')
        elif k == 'XD':
            out.append(pad + 'EXIT DO')
        elif k == 'XF':
            out.append(pad + 'EXIT FOR')
        elif k == 'E':
            out.append(pad + 'END')
        elif k == 'XS':
            out.append(pad + 'EXIT SUB')
        elif k == 'AI':
            out.append(f'{pad}a{s[1]}%({src_expr(s[2])}) = {src_expr(s[3])}')
        elif k == 'C':
            out.append(f'{pad}CALL p{s[1]}' + ('(' + ', '.join(src_arg(a) for a in s[2]) + ')' if s[2] else ''))
    return out


def to_source(program):
    procs, prog = program[0], program[1]
    arrays = program[2] if len(program) > 2 else []
    NP[0] = None
    lines = [f'DIM a{i}%({lo} TO {hi})' for i, (b_, lo, hi) in enumerate(arrays)] + src_block(prog, 0)
    for i, pr in enumerate(procs):
        NP[0] = pr['np']
        lines += ['', f'SUB p{i}' + ('(' + ', '.join(f'q{j}%' for j in range(pr['np'])) + ')' if pr['np'] else '')]
        lines += src_block(pr['body'], 1)
        lines += ['END SUB']
    NP[0] = None
    return '\n'.join(lines) + '\n'


def enc_expr(e):
    if e[0] == 'N':
        return f'N {e[1]}'
    if e[0] == 'V':
        return f'V {e[1]}'
    if e[0] in 'GT':
        return f'{e[0]} {enc_expr(e[1])}'
    if e[0] == 'X':
        b_, lo, hi = ARRAYS[0][e[1]]
        return f'X {b_} {lo} {hi} {enc_expr(e[2])}'
    return f'B {e[1]} {enc_expr(e[2])} {enc_expr(e[3])}'


def enc_block(block):
    return f'{len(block)} ' + ' '.join(enc_stmt(s) for s in block) if block else '0'


def enc_stmt(s):
    k = s[0]
    if k == 'A':
        return f'A {s[1]} {enc_expr(s[2])}'
    if k == 'P':
        return f'P {enc_expr(s[1])}'
    if k == 'I':
        return f'I {enc_expr(s[1])} {enc_block(s[2])} {enc_block(s[3])}'
    if k == 'W':
        return f'W {enc_expr(s[1])} {enc_block(s[2])}'
    if k == 'D':
        return f'D {s[1]} {enc_expr(s[2])} {s[3]} {enc_expr(s[4])} {enc_block(s[5])}'
    if k == 'F':
        return f'F {s[1]} {enc_expr(s[2])} {enc_expr(s[3])} {enc_expr(s[4])} {enc_block(s[5])}'
    if k == 'S':
        cases = ' '.join(f'{len(cl)} ' + ' '.join(enc_clause(c) for c in cl) + ' ' + enc_block(b) for cl, b in s[2])
        return f'S {enc_expr(s[1])} {len(s[2])} {cases} {enc_block(s[3])}'.replace('  ', ' ')
    if k == 'AI':
        b_, lo, hi = ARRAYS[0][s[1]]
        return f'AI {b_} {lo} {hi} {enc_expr(s[2])} {enc_expr(s[3])}'
    if k == 'C':
        return f'C {s[1]} {len(s[2])} ' + ' '.join(f'R {a[1]}' if a[0] == 'R' else 'X ' + enc_expr(a[1]) for a in s[2]) if s[2] else f'C {s[1]} 0'
    return k


def enc_clause(c):
    if c[0] == 'R':
        return f'R {enc_expr(c[1])} {enc_expr(c[2])}'
    return f'{c[0]} {enc_expr(c[1])}'


def to_request(program, fuel=4000):
    procs, prog = program[0], program[1]
    ARRAYS[0] = program[2] if len(program) > 2 else []
    ncells = sum(hi - lo + 1 for _, lo, hi in ARRAYS[0])
    ptxt = ' '.join(f'{pr["np"]} {NV - pr["np"]} {enc_block(pr["body"])}' for pr in procs)
    return f'src {fuel} {NV + ncells} {len(procs)} {ptxt + " " if procs else ""}{enc_block(prog)}'
