"""Line-based delta debugging for QBASIC sources: keep removing chunks of lines while `pred(src)` stays true."""


def reduce_lines(src, pred, max_steps=400):
    lines = src.rstrip('\n').split('\n')
    steps = 0
    n = 2
    while len(lines) >= 2 and steps < max_steps:
        chunk = max(1, len(lines) // n)
        removed = False
        i = 0
        while i < len(lines) and steps < max_steps:
            cand = lines[:i] + lines[i + chunk:]
            steps += 1
            if cand and pred('\n'.join(cand) + '\n'):
                lines = cand
                removed = True
            else:
                i += chunk
        if not removed:
            if chunk == 1:
                break
            n = min(len(lines), n * 2)
        else:
            n = max(2, n - 1)
    return '\n'.join(lines) + '\n'
