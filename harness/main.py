"""./vcheck <Cxx> [quick|thorough] [--replay FILE]   |   ./vcheck --setup"""
import importlib
import json
import os
import sys

from . import core


def setup():
    from . import gen_tables
    with core.build_lock():
        changed = gen_tables.generate()
        print('generated tables changed:', changed)
        rc, out = core.sh(['lake', 'build', 'QbeeModel', 'qmodel'], cwd=core.LEAN)
        print(out[-3000:])
        if rc != 0:
            # a broken proof is reported by the check of its property, not by setup; the driver must exist
            rc2, out2 = core.sh(['lake', 'build', 'qmodel'], cwd=core.LEAN)
            print(out2[-2000:])
            return 0 if rc2 == 0 else 2
    return 0


def main():
    args = sys.argv[1:]
    if not args:
        print(__doc__)
        return 2
    if args[0] == '--setup':
        return setup()
    pid = args[0]
    tier = os.environ.get('VERIF_TIER') or 'quick'
    replay = None
    i = 1
    while i < len(args):
        if args[i] in ('quick', 'thorough'):
            tier = args[i]
        elif args[i] == '--replay':
            replay = args[i + 1]
            i += 1
        i += 1
    seed = int(os.environ.get('VERIF_SEED', '0') or 0)
    mod = importlib.import_module(f'harness.checks.{pid.lower()}')
    if replay:
        data = json.load(open(replay))
        return mod.replay(data)
    chk = core.Check(pid, tier, seed)
    from . import real
    return real.big_frame(lambda: mod.run(chk))


if __name__ == '__main__':
    core.run_main(main)
