"""Executing single machine instructions of the real QVM on explicit operand cells (shared by C01/C02/C07)."""
import contextlib
import io
import math
import struct

from . import core, real, values

CT = real.CellType
TY = {'i': CT.INTEGER, 'l': CT.LONG, 's': CT.SINGLE, 'd': CT.DOUBLE, 't': CT.STRING}
TYR = {v: k for k, v in TY.items()}
_END = []


def bare_cpu():
    if not _END:
        _END.append(bytes(real.compile_src('END\n')))
    mod = real.QModule.parse(_END[0])
    m = real.QvmMachine(mod, impl=real.RecImpl())
    return m.cpu


def dbits(x):
    return struct.unpack('>Q', struct.pack('>d', float(x)))[0]


def enc_cell(kind, v):
    """kind in i l s d t"""
    if kind in 'il':
        return f'{kind}{v}'
    if kind in 'sd':
        return f'{kind}{dbits(v)}'
    return 't' + core.enc_str(v)


def enc_cellvalue(c):
    k = TYR[c.type]
    return enc_cell(k, c.value)


def exec_instr(name, cells):
    """push the cells (kind, value), run _exec_<name>; -> canonical result string"""
    cpu = bare_cpu()
    buf = io.StringIO()
    try:
        with contextlib.redirect_stdout(buf):
            for k, v in cells:
                cpu.push(TY[k], v)
            fn = getattr(cpu, '_exec_' + name.replace('%', '_integer').replace('&', '_long').replace('!', '_single')
                         .replace('#', '_double').replace('$', '_string'))
            fn()
    except real.Trapped as e:
        return 'trap ' + e.trap_code.name
    except ZeroDivisionError:
        return 'trap DIVISION_BY_ZERO'
    except Exception as e:  # noqa: BLE001
        return 'host ' + type(e).__name__
    if len(cpu.stack) != 1:
        return f'host stack{len(cpu.stack)}'
    return canon_nan('ok ' + enc_cellvalue(cpu.stack[-1]))


def canon_nan(res):
    """model answers carry NaN bit patterns: all NaNs are one value"""
    out = []
    for tok in res.split():
        if tok[:1] in 'sd' and tok[1:].isdigit():
            b = int(tok[1:])
            if (b >> 52) & 0x7ff == 0x7ff and b & ((1 << 52) - 1):
                tok = tok[0] + 'nan'
        out.append(tok)
    return ' '.join(out)


def gen_cell(rng, kind):
    if kind == 'i':
        return ('i', values.gen_int(rng, 'INTEGER'))
    if kind == 'l':
        return ('l', values.gen_int(rng, 'LONG'))
    if kind == 's':
        v = values.gen_float(rng, 'SINGLE')
        if rng.random() < 0.05:
            # (no infinity or NaN: no cell can hold one since 8040820)
            v = rng.choice([0.0, -0.0, 3.4028234663852886e38, -3.4028234663852886e38, 1.401298464324817e-45, -1.401298464324817e-45])
        return ('s', v)
    if kind == 'd':
        v = values.gen_float(rng, 'DOUBLE')
        if rng.random() < 0.05:
            v = rng.choice([0.0, -0.0, 1.7976931348623157e308, -1.7976931348623157e308, 5e-324, 2.5, 3.5, -2.5, 0.5, 1.5,
                            32767.5, 32768.5, -32768.5, 2147483647.5, 2147483648.0, -2147483648.5, 1e10, 4.5e15])
        return ('d', v)
    return ('t', values.gen_str(rng, 6))


BINOPS = ['add', 'sub', 'mul', 'div', 'idiv', 'mod', 'exp', 'and', 'or', 'xor', 'eqv', 'imp', 'cmp']
UNOPS = ['neg', 'not', 'eq', 'ne', 'lt', 'gt', 'le', 'ge', 'abs', 'sign', 'cint', 'clng', 'int']
CONV = {'i': '%', 'l': '&', 's': '!', 'd': '#'}


# operand kinds the compiler produces for each operand-less instruction (push order)
def _num(*ks):
    return [tuple(k) for k in ks]


SIGS = {}
for _op in ('add', 'sub', 'mul', 'div', 'exp', 'cmp'):
    SIGS[_op] = [('i', 'i'), ('l', 'l'), ('s', 's'), ('d', 'd')]
SIGS['add'] = SIGS['add'] + [('t', 't')]
SIGS['cmp'] = SIGS['cmp'] + [('t', 't')]
for _op in ('idiv', 'mod', 'and', 'or', 'xor', 'eqv', 'imp'):
    SIGS[_op] = [('i', 'i'), ('l', 'l')]
for _op in ('neg', 'abs', 'sign', 'int', 'cint', 'clng', 'ntos'):
    SIGS[_op] = [('i',), ('l',), ('s',), ('d',)]
SIGS['not'] = [('i',), ('l',)]
for _op in ('lt', 'gt', 'le', 'ge', 'eq', 'ne'):
    SIGS[_op] = [('i',), ('l',), ('s',), ('d',)]
for _a in 'ilsd':
    for _b in 'ilsd':
        if _a != _b:
            SIGS['conv' + CONV[_a] + CONV[_b]] = [(_a,)]
for _op in ('asc', 'lcase', 'ucase', 'ltrim', 'rtrim', 'sdbl', 'strlen'):
    SIGS[_op] = [('t',)]
SIGS['chr'] = [('i',)]
SIGS['space'] = [('i',)]
SIGS['strleft'] = [('t', 'i')]
SIGS['strright'] = [('t', 'i')]
SIGS['strmid'] = [('t', 'i', 'i')]
SIGS['strfind'] = [('l', 't', 't')]
SIGS['strrep'] = [('i', 'i'), ('i', 't')]


def tick_instr(name, cells):
    """the real QvmCpu.tick() on a one-instruction code section with the cells on the stack:
    -> 'ok' | 'trap NAME' | 'host Class site'"""
    from qvm.instrs import op_to_instr
    import traceback
    cpu = bare_cpu()
    cpu.module.code = bytes([op_to_instr[name].op_code]) + bytes([op_to_instr['halt'].op_code])
    cpu.pc = 0
    buf = io.StringIO()
    try:
        with contextlib.redirect_stdout(buf):
            for k, v in cells:
                cpu.push(TY[k], v)
            cpu.tick()
    except Exception as e:  # noqa: BLE001
        tb = traceback.extract_tb(e.__traceback__)
        return f'host {type(e).__name__} {tb[-1].name if tb else ""}'
    if cpu.halted and cpu.halt_reason.name == 'TRAP':
        return 'trap ' + cpu.last_trap.name
    return 'ok'


def frame_probes():
    """(instruction, operand index, (kind, value) put into local cell 0 | None = never assigned): the instructions that read a
    local or global cell expecting a particular kind, on a cell of another kind"""
    out = []
    for op in ('readl@', 'readg@'):
        for cell in (('i', 5), ('t', 'x'), ('d', 1.5), None):
            out.append((op, 0, cell))
    for op, okkind in (('readl%', 'i'), ('readl&', 'l'), ('readl!', 's'), ('readl#', 'd'), ('readl$', 't'),
                       ('readg%', 'i'), ('readg&', 'l'), ('readg!', 's'), ('readg#', 'd'), ('readg$', 't')):
        for cell in (('i', 5), ('t', 'x'), ('d', 1.5), ('l', 7)):
            if cell[0] != okkind:
                out.append((op, 0, cell))
    return out


def tick_frame_instr(name, idx, cell):
    """the real tick() of one variable-reading instruction with a one-cell frame / globals segment holding `cell`"""
    import struct
    import traceback
    from qvm.instrs import op_to_instr
    cpu = bare_cpu()
    try:
        code = bytes([op_to_instr['frame'].op_code]) + struct.pack('>HH', 0, 1) + \
            bytes([op_to_instr[name].op_code]) + struct.pack('>H', idx) + bytes([op_to_instr['halt'].op_code])
        cpu.module.code = code
        cpu.pc = 0
        buf = io.StringIO()
        with contextlib.redirect_stdout(buf):
            from qvm.cpu import CallFrame
            cpu.push(TY['l'], 0)              # a return address for the frame
            cpu.tick()                        # frame 0, 1
            from qvm.cell import CellValue
            if name.startswith('readg') and cpu.globals_segment.size <= idx:
                cpu.globals_segment.cells += [None] * (idx + 1 - cpu.globals_segment.size)
                cpu.globals_segment.size = idx + 1
            if cell is not None:
                seg = cpu.globals_segment if name.startswith('readg') else cpu.cur_frame
                seg.set_cell(idx, CellValue(TY[cell[0]], cell[1]))
            cpu.tick()
    except Exception as e:  # noqa: BLE001
        tb = traceback.extract_tb(e.__traceback__)
        return f'host {type(e).__name__} {tb[-1].name if tb else ""}'
    if cpu.halted and cpu.halt_reason.name == 'TRAP':
        return 'trap ' + cpu.last_trap.name
    return 'ok'
